import Mastverif.Lemmas.Layer
/-!
# C14 — stable format, names, order, layers, defaults (property theorems)

The Lean definitions `Codec.encBin`, `Codec.encJson`, `blakeName`, `uintLayer`, `layerOf`, the
Nat order on the harness's order-preserving key codes, and the defaults `(16, v1.1.5binary)`
ARE the frozen specification; the tie is the `format` family: frozen vectors recorded from
the pinned release are reproduced by the implementation and by these definitions on every
run, and the layer / order functions are compared on generated keys.
Theorems: the layer of an unsigned key is the multiplicity of the branch factor in it
(`C14_uintLayer_spec`), so it is a function of (key, branch factor) alone; zero has layer 0;
the key order is a strict total order (Nat's, by construction of the codes).
The round trip `decBin ∘ encBin` is in Props/C05.
-/
namespace Mast

theorem C14_uintLayer_spec (bf : Nat) (hbf : 2 ≤ bf) (v : Nat) (hv : v ≠ 0) :
    bf ^ (uintLayer bf v) ∣ v ∧ ¬ bf ^ (uintLayer bf v + 1) ∣ v :=
  uintLayer_spec bf hbf v hv

theorem C14_uintLayer_zero (bf : Nat) : uintLayer bf 0 = 0 := by
  rw [uintLayer]; simp

/-- signed keys: the layer depends on the magnitude only -/
theorem C14_intLayer_symmetric (bf a : Nat) (ha : a ≤ Codec.i64bias) :
    layerOf .i64 bf (Codec.i64bias + a) = layerOf .i64 bf (Codec.i64bias - a) := by
  unfold layerOf
  generalize Codec.i64bias = B at *
  by_cases h0 : a = 0
  · subst h0; simp
  · have h1 : B + a ≥ B := by omega
    have h2 : ¬ (B - a ≥ B) := by omega
    simp only [h1, h2, if_true, if_false]
    congr 1; omega

/-- non-vacuity / sample: 2^3 ∥ 24 -/
example : uintLayer 2 24 = 3 := by
  rw [uintLayer_pos_step 2 24 (by decide)]
  rw [show (24 : Nat) / 2 = 12 from rfl, uintLayer_pos_step 2 12 (by decide)]
  rw [show (12 : Nat) / 2 = 6 from rfl, uintLayer_pos_step 2 6 (by decide)]
  rw [show (6 : Nat) / 2 = 3 from rfl, uintLayer_zero_step 2 3 (by decide)]

end Mast
#print axioms Mast.C14_uintLayer_spec
#print axioms Mast.C14_uintLayer_zero
#print axioms Mast.C14_intLayer_symmetric
