import Mastverif.Lemmas.Translated
/-!
# C14 — the layer loops of key.go, translated from the source on every run

`Mastverif/Gen/KeyLayers.lean` is written by `vh -translate` from /repo/key.go each time the C14
check runs (statement by statement: Go's truncated `/` and `%` on int64, a wrapping uint8
counter, 64 rounds of loop fuel with the residual loop condition returned as a flag).
The theorems below tie those generated definitions to the model's `uintLayer` — the function the
frozen vectors, the shape invariant (C09) and the canonical form (C04) are stated with:
for every 64-bit key and every branch factor ≥ 2 the loops finish within their fuel (flag false),
the counter never wraps, and the result is the multiplicity of the branch factor in the key
(in its magnitude, for signed keys).
This file is not part of the library root, so a change of key.go that breaks these proofs does
not disturb the other properties' checks.
-/
namespace Mast.Gen

theorem C14_go_uintLayer_is_the_model (v bf : Nat) (hbf : 2 ≤ bf) (hv : v < 2 ^ 64) :
    go_uintLayer v bf = (uintLayer bf v, false) := go_uintLayer_eq v bf hbf hv

theorem C14_go_intLayer_is_the_model (v : Int) (bf : Nat) (hbf : 2 ≤ bf) (hv : v.natAbs < 2 ^ 64) :
    go_intLayer v bf = (uintLayer bf v.natAbs, false) := go_intLayer_eq v bf hbf hv

/-- non-vacuity: -48 at branch factor 4 has layer 2; 2^63 at branch factor 2 has layer 63 -/
example : go_intLayer (-48) 4 = (2, false) ∧ go_uintLayer (2 ^ 63) 2 = (63, false) := by decide

end Mast.Gen
#print axioms Mast.Gen.C14_go_uintLayer_is_the_model
#print axioms Mast.Gen.C14_go_intLayer_is_the_model
