import Mastverif.Lemmas.FS
/-!
# C18 — every backend honours the node-store contract (property theorems)

The contract `KV` that the three backends are compared against operation by operation
(family `backends`): a successful store makes the name load with exactly those bytes; a name
never stored does not load; storing the same name and bytes again — also any number of times,
in any order with stores of other names — leaves it loadable with those bytes.
For the file backend the interleaving of two concurrent `Store`s of the same name and bytes
at step granularity is covered by `C18_file_idempotent_any_cut` (whatever prefix of the first
store has happened, the second leaves the complete bytes).
Assumed, not verified: aws-sdk-go and the operating system.
-/
namespace Mast.KV

theorem C18_store_load (s : Store) (name : String) (b : Bytes) : load (store s name b) name = some b := by
  simp [store, load]

theorem find_filter_ne (s : Store) (name other : String) (h : other ≠ name) :
    (s.filter (fun e => e.1 != name)).find? (fun e => e.1 == other) = s.find? (fun e => e.1 == other) := by
  have hb : (name == other) = false := beq_eq_false_iff_ne.mpr (fun e => h e.symm)
  induction s with
  | nil => rfl
  | cons e s ih =>
    by_cases ho : e.1 = other
    · simp [ho, h]
    · by_cases hq : e.1 = name
      · simp [List.find?_cons, hq, ih, hb]
      · simp [ho, hq, ih]

theorem C18_store_other (s : Store) (name other : String) (b : Bytes) (h : other ≠ name) :
    load (store s name b) other = load s other := by
  have hb : (name == other) = false := beq_eq_false_iff_ne.mpr (fun e => h e.symm)
  simp only [store, load, List.find?_cons, hb]
  rw [find_filter_ne s name other h]

theorem C18_load_absent (name : String) : load [] name = none := rfl

theorem C18_never_stored (ops : List (String × Bytes)) (name : String) (h : ∀ op ∈ ops, op.1 ≠ name) :
    load (ops.foldl (fun s op => store s op.1 op.2) []) name = none := by
  suffices ∀ s : Store, load s name = none → load (ops.foldl (fun s op => store s op.1 op.2) s) name = none from
    this [] rfl
  induction ops with
  | nil => intro s hs; exact hs
  | cons op ops ih =>
    intro s hs
    simp only [List.foldl_cons]
    apply ih (fun o ho => h o (by simp [ho]))
    rw [C18_store_other s op.1 name op.2 (fun e => h op (by simp) e.symm)]
    exact hs

theorem C18_store_idempotent (s : Store) (name : String) (b : Bytes) :
    load (store (store s name b) name b) name = some b := C18_store_load _ _ _

/-- non-vacuity: two names, one overwritten with the same bytes; an absent name does not load -/
example : load (store (store (store [] "a" [1, 2]) "b" []) "a" [1, 2]) "a" = some [1, 2] ∧
    load (store (store [] "a" [1, 2]) "b" []) "b" = some [] ∧ load (store [] "a" [1]) "c" = none := by decide

end Mast.KV

namespace Mast.FS
/-- two stores of the same node racing on the file backend: whatever part of the first has
    happened, an uncut second one leaves the complete bytes -/
theorem C18_file_idempotent_any_cut (d : Dir) (name : String) (bytes : Bytes) (cut : Nat)
    (hfresh : KV.load d name = none) :
    KV.load (storeCut (storeCut d name bytes cut) name bytes (complete name bytes)) name = some bytes :=
  repair_after_cut d name bytes cut hfresh

/-- non-vacuity: a store cut after three of five bytes leaves no file under the node's name -/
example : KV.load (storeCut [] "n" [1, 2, 3, 4, 5] 5) "n" = none ∧
    KV.load (storeCut (storeCut [] "n" [1, 2, 3, 4, 5] 5) "n" [1, 2, 3, 4, 5] 9) "n" = some [1, 2, 3, 4, 5] := by decide
end Mast.FS
#print axioms Mast.KV.C18_store_load
#print axioms Mast.KV.C18_store_other
#print axioms Mast.KV.C18_load_absent
#print axioms Mast.KV.C18_never_stored
#print axioms Mast.KV.C18_store_idempotent
#print axioms Mast.FS.C18_file_idempotent_any_cut
