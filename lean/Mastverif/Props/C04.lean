import Mastverif.Lemmas.WF
import Mastverif.Lemmas.Store
/-!
# C04 — canonical form (property theorems)

`C04_unique_shape`: two well-formed trees of the same level holding the same entries are the
same tree (up to where their nodes currently reside) — for every layer assignment.
`C04_same_entries_same_root`: hence they persist to the same root name, whatever histories
produced them.  The name is the one of the reference builder's tree as soon as that tree is
well-formed at the same level (`Props/C04` work list: `build_WF`, `toList_build`, the height
rule as an invariant of insert / delete).  The tie is family `canon`: every root is compared
with the roots of other histories and with the reference builder's root.
-/
namespace Mast.T

theorem C04_unique_shape (layer : Nat → Nat) (t1 t2 : T) (d : Nat)
    (h1 : WF layer d t1) (h2 : WF layer d t2) (he : toList t1 = toList t2) : erase t1 = erase t2 :=
  WF_unique layer t1 t2 d h1 h2 he

theorem C04_same_entries_same_root (layer : Nat → Nat) (e : Enc) (t1 t2 : T) (d : Nat)
    (h1 : WF layer d t1) (h2 : WF layer d t2) (he : toList t1 = toList t2) :
    nodeName e t1 = nodeName e t2 ∧ nodeBytes e t1 = nodeBytes e t2 := by
  have := WF_unique layer t1 t2 d h1 h2 he
  constructor
  · rw [← nodeName_erase e t1, ← nodeName_erase e t2, this]
  · simp only [nodeBytes]; rw [← rowB_erase e t1, ← rowB_erase e t2, this]

/-- non-vacuity: the same three entries reached as two different values (one persisted) -/
example : WF (fun k => k % 2) 1 (cons false (cons false nil 2 0 (last false nil)) 3 0 (last false nil)) ∧
    WF (fun k => k % 2) 1 (cons true (cons true nil 2 0 (last true nil)) 3 0 (last true nil)) := by
  simp [WF, isEmptyRow, T.toList]

end Mast.T
#print axioms Mast.T.C04_unique_shape
#print axioms Mast.T.C04_same_entries_same_root
