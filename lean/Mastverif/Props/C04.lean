import Mastverif.Lemmas.Canon
/-!
# C04 — canonical form (property theorems)

For every layer function (every layer assignment, adversarial user `Key` types included) and
every branch factor ≥ 2:
* `C04_unique_shape` — two well-formed trees of the same level with the same entries are the same
  tree (up to where their nodes reside);
* `C04_height_rule` — after EVERY history the height is
  `min(highest key layer, floor(log_bf(size-1)))`, 0 below two entries (`canonHeight`);
* `C04_canonical_tree` — after every history the tree IS the reference tree `T.build`, which is
  constructed from the entry list alone, without insert or delete;
* `C04_same_contents_same_root` — hence two histories (any orders of inserts, updates, deletes,
  persists) that end in the same entries produce the identical root record: same name, same
  height, same size — and it is the root of `Tree.canon`, the independently built reference.
Names are computed by an arbitrary `Enc` (any encoder, any hash): equal trees have equal names
whatever the hash.  Clones and reloads are the identity on the tree value (C05).
Tie: family `canon`.
-/
namespace Mast
open T

namespace T
theorem C04_unique_shape (layer : Nat → Nat) (t1 t2 : T) (d : Nat)
    (h1 : WF layer d t1) (h2 : WF layer d t2) (he : toList t1 = toList t2) : erase t1 = erase t2 :=
  WF_unique layer t1 t2 d h1 h2 he

theorem isEmptyTop_erase (t : T) : Tree.isEmptyTop (erase t) = Tree.isEmptyTop t := by
  cases t with
  | nil => rfl
  | last p c => cases c <;> rfl
  | cons p c k v r => rfl
end T

namespace Tree
variable (layer : Nat → Nat)

theorem C04_height_rule (m : Tree) (hi : InvH layer m) :
    m.height = canonHeight m.bf layer m.toList :=
  HOK_unique hi.1.bf2 hi.2 (canonHeight_HOK m.bf hi.1.bf2 layer m.toList)

theorem C04_canonical_tree (m : Tree) (hi : InvH layer m) :
    erase m.root = erase (build layer (canonHeight m.bf layer m.toList) m.toList) := by
  rw [← C04_height_rule layer m hi]
  exact WF_unique layer _ _ m.height hi.1.wf (build_WF layer m.height m.toList)
    (by rw [toList_build]; rfl)

/-- the root record depends on the erased tree, the size, the height and the branch factor only -/
theorem rootRec_eq (e : Enc) (m1 m2 : Tree) (hr : erase m1.root = erase m2.root)
    (hs : m1.size = m2.size) (hh : m1.height = m2.height) (hb : m1.bf = m2.bf) :
    (makeRoot e m1).2.1 = (makeRoot e m2).2.1 := by
  have hn : nodeName e m1.root = nodeName e m2.root := by
    rw [← nodeName_erase e m1.root, ← nodeName_erase e m2.root, hr]
  have he : isEmptyTop m1.root = isEmptyTop m2.root := by
    rw [← isEmptyTop_erase m1.root, ← isEmptyTop_erase m2.root, hr]
  unfold makeRoot
  rw [he]
  split
  · simp [hs, hh, hb]
  · split <;> split <;> simp [hs, hh, hb, hn]

theorem C04_same_contents_same_root (e : Enc) (m1 m2 : Tree) (h1 : InvH layer m1) (h2 : InvH layer m2)
    (hb : m1.bf = m2.bf) (hc : m1.toList = m2.toList) :
    (makeRoot e m1).2.1 = (makeRoot e m2).2.1 := by
  have hh : m1.height = m2.height := by
    apply HOK_unique h1.1.bf2 h1.2
    rw [hb, hc]; exact h2.2
  apply rootRec_eq e m1 m2 _ _ hh hb
  · exact WF_unique layer _ _ m1.height h1.1.wf (hh ▸ h2.1.wf) hc
  · rw [h1.1.size, h2.1.size]; simp only [Tree.toList] at hc; rw [hc]

/-- the reference tree satisfies the full invariant, for every strictly ascending entry list -/
theorem canon_InvH (bf : Nat) (hbf : 2 ≤ bf) (es : List (Nat × Nat)) (hs : Sorted es) :
    InvH layer (Tree.canon bf layer es) := by
  refine ⟨⟨?_, ?_, ?_, hbf, rfl, rfl⟩, ?_⟩
  · exact build_WF layer _ es
  · simp only [Tree.canon]; rw [toList_build]; exact hs
  · simp only [Tree.canon]; rw [toList_build]
  · simp only [Tree.canon, Tree.toList]; rw [toList_build]
    exact canonHeight_HOK bf hbf layer es

/-- **C04**: any two histories from the empty tree that end in the same entries persist to the
    identical root, and that root is the one of the independently built reference tree. -/
theorem C04_histories (e : Enc) (bf : Nat) (hbf : 2 ≤ bf) (ops1 ops2 : List Op)
    (hc : (execT layer e (Tree.empty bf) ops1).toList = (execT layer e (Tree.empty bf) ops2).toList) :
    (makeRoot e (execT layer e (Tree.empty bf) ops1)).2.1 = (makeRoot e (execT layer e (Tree.empty bf) ops2)).2.1 ∧
    (makeRoot e (execT layer e (Tree.empty bf) ops1)).2.1 =
      (makeRoot e (Tree.canon bf layer (execT layer e (Tree.empty bf) ops1).toList)).2.1 := by
  have i0 := invH_empty layer bf hbf
  have i1 := invH_execT layer e ops1 _ i0
  have i2 := invH_execT layer e ops2 _ i0
  have b1 := bf_execT layer e ops1 _ i0.1
  have b2 := bf_execT layer e ops2 _ i0.1
  constructor
  · exact C04_same_contents_same_root layer e _ _ i1 i2 (by rw [b1, b2]) hc
  · have ic := canon_InvH layer bf hbf _ i1.1.sorted
    apply C04_same_contents_same_root layer e _ _ i1 ic
    · rw [b1]; rfl
    · simp only [Tree.canon, Tree.toList]; rw [toList_build]

/-- non-vacuity: bf = 2, layers k % 3: insert 4 keys then delete one vs. insert the 3 survivors -/
example : InvH (fun k => k % 3) (Tree.empty 2) := invH_empty _ 2 (by omega)

end Tree
end Mast
#print axioms Mast.T.C04_unique_shape
#print axioms Mast.Tree.C04_height_rule
#print axioms Mast.Tree.C04_canonical_tree
#print axioms Mast.Tree.C04_same_contents_same_root
#print axioms Mast.Tree.C04_histories
