import Mastverif.Model.Tree
import Mastverif.Model.Codec
import Mastverif.Model.Hash
import Mastverif.Model.Store
import Mastverif.Lemmas.Basic
import Mastverif.Lemmas.WF
import Mastverif.Props.C01
