import Mastverif.Model.Tree
